"""C19  No argument values make the C extension access memory outside its matrices."""
import os

LEVEL = "exploration"
TECHNIQUE = ("sanitizers + runtime monitors: ASan+UBSan build of base/blas/lapack/misc_solvers, compile-time page-guard allocator build "
             "(overrun / underrun / strict layouts), hostile integer tuples (small exhaustive boxes, values near 2^31 / 2^63) and replay of the "
             "consistent workloads of the functional checks under both instruments; oracle = process survival, zero sanitizer/guard report "
             "blocks, footprint oracle of the BLAS spec")
LEVEL_TEXT = ("memory safety is decided only for code the workloads reach; three instruments with different blind spots are combined; "
              "a clean run is not a proof")
RULE = ("groups: self-test of each instrument (a deliberate overflow must be reported), replay of the workloads of C08/C15/C16/C17/C18/C20 under "
        "asan and guard builds, hostile small boxes on base/dense/sparse/misc_solvers/blas/lapack entry points, large values near 2^31 and 2^63 per "
        "integer parameter in isolated child processes.  class signature = group x function x outcome")
ASSUMPTIONS = ["ASan sees only accesses made by the instrumented cvxopt C code; accesses made inside OpenBLAS on cvxopt buffers are covered by the "
               "guard-page build (reads within 64 bytes past a block are tolerated in the default layout because OpenBLAS kernels legitimately over-read)",
               "the seven plug-in modules (cholmod, umfpack, amd, glpk, dsdp, gsl, fftw) come from the wheel and are not instrumented",
               "MemorySanitizer/TSan are not used (uninstrumented CPython)"]
REPLAY_PROPS = ["C08", "C15", "C16", "C17", "C18", "C20"]
_REQ = ["selftest.asan-detected", "selftest.guard-over-detected", "selftest.guard-under-detected", "hostile.calls",
        "hostile.rejected", "hostile.accepted", "large.calls", "guard.allocations"]
REQUIRED_COUNTERS = {"quick": _REQ, "thorough": _REQ + ["valgrind.workers"]}


def _available():
    here = os.path.dirname(os.path.abspath(__file__))
    claimed = set(open(os.path.join(os.path.dirname(here), "CLAIMED")).read().split())
    return [p for p in REPLAY_PROPS if os.path.exists(os.path.join(here, p.lower() + ".py")) and p in claimed]


def plan(tier):
    g = []
    q = tier == "quick"
    g.append({"variant": "asan", "name": "selftest-asan", "workers": 1, "cases": 1, "params": {"mon": "selftest"}})
    g.append({"variant": "guard", "name": "selftest-guard", "workers": 1, "cases": 2, "params": {"mon": "selftest"}})
    for p in _available():
        n = {"C08": 300, "C15": 60, "C16": 60, "C17": 20000, "C18": 600, "C20": 60}.get(p, 30) * (1 if q else 6)
        w = {"C15": 4, "C16": 4, "C17": 4, "C18": 3, "C20": 2}.get(p, 1) if q else 4
        g.append({"variant": "asan", "name": "asan-replay-" + p, "workers": w, "cases": n, "params": {"mon": "replay", "prop": p}})
        g.append({"variant": "guard", "name": "guard-replay-" + p, "workers": max(1, w // 2), "cases": n, "params": {"mon": "replay", "prop": p}})
        if not q:
            g.append({"variant": "guard", "name": "guard-under-replay-" + p, "workers": 1, "cases": n, "params": {"mon": "replay", "prop": p},
                      "env": {"VGUARD_LAYOUT": "under"}})
    hc = 10000 if q else 60000
    g.append({"variant": "asan", "name": "asan-hostile", "workers": 4, "cases": hc, "params": {"mon": "hostile"}})
    g.append({"variant": "guard", "name": "guard-hostile", "workers": 2, "cases": hc, "params": {"mon": "hostile"}})
    g.append({"variant": "guard", "name": "guard-under-hostile", "workers": 1, "cases": hc, "params": {"mon": "hostile"}, "env": {"VGUARD_LAYOUT": "under"}})
    g.append({"variant": "guard", "name": "guard-strict-hostile", "workers": 1, "cases": hc, "params": {"mon": "hostile", "noblas": True},
              "env": {"VGUARD_LAYOUT": "strict"}})   # strict layout: cvxopt's own loops only (zhemv_U_NEHALEM over-reads its x operand too)
    if not q:
        vg = ["valgrind", "--quiet", "--error-limit=no", "--num-callers=12", "--suppressions=" + os.path.join(os.path.dirname(os.path.dirname(os.path.abspath(__file__))), "vguard", "valgrind.supp")]
        g.append({"variant": "plain", "name": "valgrind-hostile", "workers": 2, "cases": 250, "params": {"mon": "hostile"}, "wrap": vg,
                  "env": {"PYTHONMALLOC": "malloc", "OPENBLAS_CORETYPE": "NEHALEM"}})
        if "C08" in _available():
            g.append({"variant": "plain", "name": "valgrind-replay-C08", "workers": 1, "cases": 200, "params": {"mon": "replay", "prop": "C08"}, "wrap": vg,
                      "env": {"PYTHONMALLOC": "malloc", "OPENBLAS_CORETYPE": "NEHALEM"}})
    # OpenBLAS' AVX kernels (zdotc_k / zgemv_n for SANDYBRIDGE, HASWELL, COOPERLAKE ...) read up to one stride past the end of
    # correctly sized operands (a third-party over-read, seen in zlauu2 <- lapack.potri on a 5x5 block with ldA=6).  The guard
    # builds therefore pin the NEHALEM kernel set, which was calibrated silent even in the strict layout.
    for g_ in g:
        if g_["variant"] == "guard":
            g_.setdefault("env", {})["OPENBLAS_CORETYPE"] = "NEHALEM"
    g.append({"variant": "asan", "name": "asan-large", "workers": 2, "cases": 3 if q else 60, "params": {"mon": "large"}})
    g.append({"variant": "guard", "name": "guard-large", "workers": 1, "cases": 3 if q else 60, "params": {"mon": "large"}, "env": {"OPENBLAS_CORETYPE": "NEHALEM"}})
    return g


def classify_crash(wit, errtxt, rc):
    """mechanism key for a dead worker (driver hook)"""
    import re
    m = re.search(r"(\w+\.c):(\d+):\d+: runtime error: ([a-z ]+)", errtxt)
    if m:
        return "ubsan:%s:%s" % (m.group(1), m.group(3).strip().replace(" ", "-"))
    m = re.search(r"ERROR: AddressSanitizer: ([\w-]+)", errtxt)
    fn = ""
    if wit and isinstance(wit.get("desc"), dict):
        fn = str(wit["desc"].get("fn", ""))
    if m:
        return "asan:%s:%s" % (m.group(1), fn)
    if "VGUARD:" in errtxt:
        return "guard-canary:%s" % fn
    return "crash:%s" % fn


CHILD_SELFTEST = r'''
import ctypes, sys
from cvxopt import matrix
a = matrix(1.0, (4, 4))
addr = ctypes.addressof(ctypes.c_char.from_buffer(memoryview(a)))
mode = sys.argv[1]
if mode == "over":
    ctypes.memset(addr + 16 * 8, 0x41, 80)      # 80 bytes past the end
    del a
elif mode == "under":
    ctypes.memset(addr - 8, 0x41, 8)
    del a
print("survived")
'''


def run(ctx):
    import sys, subprocess, json, ctypes, importlib, random as _random
    mon = ctx.params.get("mon")

    # ------------------------------------------------------------------ self-test of the instruments
    if mon == "selftest":
        def st(c):
            modes = ["over"] if ctx.variant == "asan" else ["over", "under"]
            mode = modes[c.k % len(modes)]
            env = dict(os.environ)
            if ctx.variant == "guard":
                env["VGUARD_LAYOUT"] = "over" if mode == "over" else "under"
            p = subprocess.run([sys.executable, "-c", CHILD_SELFTEST, mode], capture_output=True, text=True, env=env, timeout=120)
            died = p.returncode != 0 and "survived" not in p.stdout
            label = "asan" if ctx.variant == "asan" else "guard-" + mode
            if died:
                ctx.count("selftest.%s-detected" % label)
            # an instrument that does not see a deliberate overflow makes the whole check inconclusive
            # (REQUIRED_COUNTERS), it is not a violation of the property
            c.check()
            c.cls("selftest", label, "detected" if died else "MISSED")
            ctx.sample({"selftest": label, "returncode": p.returncode, "stderr-head": p.stderr[:200]})
        for k in ctx.cases():
            ctx.run_case(k, {"fn": "selftest"}, st)
        return

    # ------------------------------------------------------------------ replay of functional workloads under the instrument
    if mon == "replay":
        from vlib import harness
        prop = ctx.params["prop"]
        mod = importlib.import_module("props." + prop.lower())
        orig_fail = harness.Case.fail
        MEMKEYS = ("accepts-out-of-footprint", "modifies-outside-footprint", "outside-footprint", ":footprint", "invalid-short-accepted",
                   "crash", "ccs-", "CCS")
        def quiet_fail(self, key, msg, **detail):
            # functional verdicts belong to the functional checks; footprint / structural-damage verdicts are memory safety
            if any(m_ in key for m_ in MEMKEYS):
                ctx.count("replay.memory-verdicts")
                return orig_fail(self, "replay-%s:%s" % (prop, key), msg, **detail)
            ctx.count("replay.functional-verdicts-ignored")
        harness.Case.fail = quiet_fail
        orig_run_case = ctx.run_case
        def run_case(k, desc, fn):
            d = dict(desc); d["fn"] = "replay:" + prop
            c = orig_run_case(k, d, fn)
            if c.sig is None:
                c.sig = "replay|" + prop
            return c
        ctx.run_case = run_case
        grp = (mod.plan("quick") or [{}])[0]
        ctx.params = dict(grp.get("params", {}), **{k_: v for k_, v in ctx.params.items() if k_ in ("group",)})
        try:
            mod.run(ctx)
        finally:
            harness.Case.fail = orig_fail
        ctx.count("replay.cases." + prop, ctx.cases_run)
        _guard_stats(ctx)
        return

    import numpy as np
    import cvxopt
    from cvxopt import matrix, spmatrix, sparse, spdiag, base, blas, lapack, misc_solvers

    # ------------------------------------------------------------------ hostile small boxes
    if mon == "hostile":
        try:
            from vlib.oracle import blasspec
        except Exception:
            blasspec = None
        noblas = ctx.params.get("noblas", False)
        EXC = (TypeError, ValueError, IndexError, ArithmeticError, OverflowError, NotImplementedError, MemoryError, ZeroDivisionError)

        def rmat(rng, tc=None, maxdim=4, allow_empty=True):
            tc = tc or rng.choice("dddzi")
            m = rng.randint(0 if allow_empty else 1, maxdim); n = rng.randint(0 if allow_empty else 1, maxdim)
            if tc == "i":
                return matrix([rng.randint(-5, 5) for _ in range(m * n)], (m, n), "i")
            if tc == "z":
                return matrix([complex(rng.uniform(-2, 2), rng.uniform(-2, 2)) for _ in range(m * n)], (m, n), "z")
            return matrix([rng.uniform(-2, 2) for _ in range(m * n)], (m, n), "d")

        def rsp(rng, tc=None, maxdim=4):
            tc = tc or rng.choice("ddz")
            m, n = rng.randint(0, maxdim), rng.randint(0, maxdim)
            k = rng.randint(0, m * n + 1) if m * n else 0
            I = [rng.randrange(m) for _ in range(k)] if m else []
            J = [rng.randrange(n) for _ in range(k)] if n else []
            k = min(len(I), len(J)); I, J = I[:k], J[:k]
            V = [rng.uniform(-2, 2) if tc == "d" else complex(rng.uniform(-2, 2), rng.uniform(-2, 2)) for _ in range(k)]
            return spmatrix(V, I, J, (m, n), tc)

        def ridx(rng, L):
            r = rng.random()
            box = lambda: rng.randint(-L - 3, L + 3)
            if r < 0.3: return box()
            if r < 0.55:
                return slice(rng.choice([None, box()]), rng.choice([None, box()]), rng.choice([None, 1, -1, 2, -2, 0, 3]))
            if r < 0.8: return [box() for _ in range(rng.randint(0, 5))]
            return matrix([box() for _ in range(rng.randint(0, 5))], tc="i")

        DET = {}

        def ival(rng, hi=5):
            return rng.randint(-2, hi)

        def op_index(rng):
            A = rmat(rng) if rng.random() < 0.5 else rsp(rng)
            two = rng.random() < 0.5
            idx = (ridx(rng, A.size[0]), ridx(rng, A.size[1])) if two else ridx(rng, len(A) if isinstance(A, matrix) else A.size[0] * A.size[1])
            DET.update({"A": A, "idx": idx})
            if rng.random() < 0.5:
                return "getitem", lambda: A[idx]
            val = rng.choice([1.5, 2, rmat(rng, "d"), rmat(rng), rsp(rng), [1.0, 2.0], 1j])
            DET["val"] = val
            def f():
                A[idx] = val
                if isinstance(A, spmatrix):
                    _ccs_ok(A)
            return "setitem", f

        def _ccs_ok(S):
            cp, ri = list(S.CCS[0]), list(S.CCS[1])
            assert cp[0] == 0 and len(cp) == S.size[1] + 1 and cp[-1] == len(ri) == len(S.CCS[2]), "CCS corrupt"
            assert all(0 <= r < S.size[0] for r in ri), "CCS row index out of range"

        def op_construct(rng):
            r = rng.random()
            if r < 0.3:
                x = rng.choice([1.0, 2, 1j, [1.0, 2.0, 3.0], [1, 2, 3, 4], range(6), rmat(rng), rsp(rng)])
                size = (ival(rng), ival(rng))
                tc = rng.choice(["d", "i", "z", None])
                return "matrix()", lambda: matrix(x, size, tc) if tc else matrix(x, size)
            if r < 0.6:
                k = rng.randint(0, 5)
                V = rng.choice([[rng.uniform(-1, 1) for _ in range(k)], 1.0, rmat(rng, "d")])
                I = [rng.randint(-2, 5) for _ in range(k)]; J = [rng.randint(-2, 5) for _ in range(k)]
                size = rng.choice([None, (ival(rng), ival(rng))])
                return "spmatrix()", lambda: _ccs_ok(spmatrix(V, I, J, size) if size else spmatrix(V, I, J))
            if r < 0.8:
                blocks = [[rng.choice([rmat(rng, "d"), rsp(rng, "d"), 1.0]) for _ in range(rng.randint(1, 3))] for _ in range(rng.randint(1, 3))]
                return "sparse()", lambda: sparse(blocks)
            items = [rng.choice([rmat(rng, "d"), rsp(rng, "d"), 2.0, [1.0, 2.0]]) for _ in range(rng.randint(0, 3))]
            return "spdiag()", lambda: spdiag(items)

        def op_buffer(rng):
            """matrix construction / assignment from foreign buffers of every item size, exactly sized (any read past the
            exporter's last item is a heap overflow in the instrumented build), contiguous, strided, reversed, 2-D"""
            import array as _array
            code = rng.choice(["i", "i", "l", "q", "d", "f", "b", "h", "B"])
            L = rng.randint(0, 7)
            a = _array.array(code, [rng.randint(-5, 5) if code not in "dfB" else (abs(rng.randint(-5, 5)) if code == "B" else rng.uniform(-2, 2)) for _ in range(L)])
            view = rng.choice(["array", "memoryview", "strided", "reversed", "cast2d", "bytes"])
            if view == "array": src = a
            elif view == "memoryview": src = memoryview(a)
            elif view == "strided": src = memoryview(a)[::2]
            elif view == "reversed": src = memoryview(a)[::-1]
            elif view == "cast2d":
                r_ = rng.choice([1, 2, 3])
                try:
                    src = memoryview(a).cast("B").cast(code, (r_, L // r_)) if L and L % r_ == 0 else memoryview(a)
                except (TypeError, ValueError):
                    src = memoryview(a)
            else: src = bytes(a)
            tc = rng.choice([None, "i", "d", "z"])
            size = rng.choice([None, None, (ival(rng), ival(rng)), (len(a), 1)])
            DET.update({"buffer": "%s('%s', len %d)" % (view, code, L), "tc": tc, "size": size})
            if rng.random() < 0.7:
                def f():
                    args = [src] + ([size] if size is not None else []) + ([tc] if (tc is not None and size is not None) else [])
                    if tc is not None and size is None:
                        matrix(src, tc=tc)
                    else:
                        matrix(*args)
                return "matrix(buffer)", f
            A = rmat(rng)
            idx = ridx(rng, len(A))
            def g():
                A[idx] = src
            DET["A"] = A
            return "setitem(buffer)", g

        def op_base(rng):
            fn = rng.choice(["gemv", "gemm", "syrk", "symv", "axpy", "emul", "ediv", "size", "arith"])
            tc = rng.choice("ddz")
            A = rmat(rng, tc) if rng.random() < 0.5 else rsp(rng, tc)
            if fn == "gemv":
                x, y = rmat(rng, tc, 6), rmat(rng, tc, 6)
                kw = {k_: ival(rng) for k_ in rng.sample(["m", "n", "incx", "incy", "offsetA", "offsetx", "offsety"], rng.randint(0, 5))}
                kw["trans"] = rng.choice(["N", "T", "C"])
                DET.update({"A": A, "x": x, "y": y, "kw": kw})
                return "base.gemv", lambda: base.gemv(A, x, y, **kw)
            if fn == "gemm":
                B = rmat(rng, tc) if rng.random() < 0.5 else rsp(rng, tc)
                C = rmat(rng, tc) if rng.random() < 0.5 else rsp(rng, tc)
                kw = {"transA": rng.choice("NTC"), "transB": rng.choice("NTC"), "partial": rng.random() < 0.3, "beta": rng.choice([0.0, 1.0])}
                DET.update({"A": A, "B": B, "C": C, "kw": kw})
                def f():
                    base.gemm(A, B, C, **kw)
                    if isinstance(C, spmatrix): _ccs_ok(C)
                return "base.gemm", f
            if fn == "syrk":
                C = rmat(rng, tc) if rng.random() < 0.5 else rsp(rng, tc)
                kw = {"trans": rng.choice("NTC"), "uplo": rng.choice("LU"), "partial": rng.random() < 0.3, "beta": rng.choice([0.0, 1.0])}
                DET.update({"A": A, "C": C, "kw": kw})
                def f():
                    base.syrk(A, C, **kw)
                    if isinstance(C, spmatrix): _ccs_ok(C)
                return "base.syrk", f
            if fn == "symv":
                x, y = rmat(rng, "d", 6), rmat(rng, "d", 6)
                Ad = rmat(rng, "d") if rng.random() < 0.5 else rsp(rng, "d")
                kw = {k_: ival(rng) for k_ in rng.sample(["n", "ldA", "incx", "incy", "offsetA", "offsetx", "offsety"], rng.randint(0, 5))}
                kw["uplo"] = rng.choice("LU")
                DET.update({"A": Ad, "x": x, "y": y, "kw": kw})
                return "base.symv", lambda: base.symv(Ad, x, y, **kw)
            if fn == "axpy":
                y = rmat(rng, tc) if rng.random() < 0.5 else rsp(rng, tc)
                return "base.axpy", lambda: base.axpy(A, y, alpha=rng.choice([1.0, -2.0]))
            if fn in ("emul", "ediv"):
                B = rng.choice([rmat(rng, tc), rsp(rng, tc), 2.0])
                f_ = cvxopt.mul if fn == "emul" else cvxopt.div
                return "cvxopt." + fn, lambda: f_(A, B)
            if fn == "size":
                def f():
                    A.size = (ival(rng), ival(rng))
                    if isinstance(A, spmatrix): _ccs_ok(A)
                return "size=", f
            B = rng.choice([rmat(rng), rsp(rng), 2, 1.5, 1j])
            o = rng.choice(["+", "-", "*", "/", "**", "+=", "-=", "*=", "T", "H", "neg", "abs"])
            def f():
                A2 = +A
                if o == "+": r_ = A2 + B
                elif o == "-": r_ = A2 - B
                elif o == "*": r_ = A2 * B
                elif o == "/": r_ = A2 / B
                elif o == "**": r_ = A2 ** rng.choice([2, 0.5, -1])
                elif o == "+=": A2 += B; r_ = A2
                elif o == "-=": A2 -= B; r_ = A2
                elif o == "*=": A2 *= B; r_ = A2
                elif o == "T": r_ = A2.T
                elif o == "H": r_ = A2.H
                elif o == "neg": r_ = -A2
                else: r_ = abs(A2)
                if isinstance(r_, spmatrix): _ccs_ok(r_)
            return "arith" + o, f

        def op_misc(rng):
            """misc_solvers kernels with arguments CONSISTENT with dims (offsets in boxes); the inconsistent class is a recorded finding and is not driven here"""
            from vlib.oracle.cone import Dims
            d = Dims(rng.randint(0, 3), [rng.randint(1, 3) for _ in range(rng.randint(0, 2))], [rng.randint(0, 3) for _ in range(rng.randint(0, 2))])
            N, Np = d.N, d.Np
            fn = rng.choice(["pack", "unpack", "trisc", "triusc", "symm", "sdot", "pack2"])
            ox, oy = rng.randint(0, 3), rng.randint(0, 3)
            x = matrix([rng.uniform(-1, 1) for _ in range(N + ox)] or [0.0][:0], (N + ox, 1), "d")
            if fn == "pack":
                y = matrix(0.0, (Np + oy, 1)); return "misc.pack", lambda: misc_solvers.pack(x, y, d.asdict(), 0, ox, oy)
            if fn == "unpack":
                xp = matrix(1.0, (Np + ox, 1)); y = matrix(0.0, (N + oy, 1)); return "misc.unpack", lambda: misc_solvers.unpack(xp, y, d.asdict(), 0, ox, oy)
            if fn == "trisc": return "misc.trisc", lambda: misc_solvers.trisc(x, d.asdict(), ox)
            if fn == "triusc": return "misc.triusc", lambda: misc_solvers.triusc(x, d.asdict(), ox)
            if fn == "symm":
                n = rng.randint(0, 4); xx = matrix(1.0, (n * n + ox, 1)); return "misc.symm", lambda: misc_solvers.symm(xx, n, ox)
            if fn == "sdot":
                x0 = matrix(1.0, (N, 1)); return "misc.sdot", lambda: misc_solvers.sdot(x0, x0, d.asdict(), 0)
            x2 = matrix(1.0, (N, rng.randint(1, 3))); return "misc.pack2", lambda: misc_solvers.pack2(x2, d.asdict(), 0)

        def op_blas(rng):
            """hostile BLAS calls from the spec generator (boundary boxes / illegal values), ints perturbed into small
            negative and off-by-one values; oracle: no crash + (footprint oracle) an accepted call fits"""
            name = rng.choice(blasspec.NAMES)
            call = blasspec.gen_call(rng, name, rng.choice([2, 2, 3, 1, 4, 4]))
            if rng.random() < 0.5:
                ints = [k_ for k_, v_ in call["args"].items() if isinstance(v_, int) and not isinstance(v_, bool)]
                for k_ in rng.sample(ints, min(len(ints), rng.randint(1, 2))):
                    call["args"][k_] = call["args"][k_] + rng.choice([-3, -2, -1, 1, 2, 5])
            DET.update(blasspec.describe(call))
            def f():
                objs = {b: blasspec.to_cvxopt(v) for b, v in call["bufs"].items()}
                pos, kw = blasspec.invocation(call, objs)
                getattr(blas, name)(*pos, **kw)
                try:
                    fit = blasspec.fits(call)
                except Exception:
                    fit = True
                assert fit, "accepted-call-outside-footprint"
            return "blas." + name, f

        def op_lapack(rng):
            """size-inconsistent LAPACK calls: square systems with n, nrhs, ld, offsets drawn from small boxes"""
            tc = rng.choice("dz")
            n = rng.randint(0, 4)
            A = rmat(rng, tc, 5); B = rmat(rng, tc, 5)
            fn = rng.choice(["gesv", "getrf", "getrs", "potrf", "potrs", "posv", "sysv", "trtrs", "gels", "geqrf", "syev", "gesvd", "lacpy",
                             "getri", "potri", "trtri", "heev", "gesdd"])
            kw = {k_: ival(rng) for k_ in rng.sample(["n", "nrhs", "ldA", "ldB", "offsetA", "offsetB", "m"], rng.randint(0, 4))}
            # pivot CONTENTS are data produced by getrf, not size arguments: keep them valid (identity pivots 1..k)
            ip = matrix(list(range(1, rng.randint(0, 5) + 1)), tc="i")
            W = matrix(0.0, (rng.randint(0, 5), 1))
            DET.update({"A": A, "B": B, "kw": kw, "ipiv": len(ip), "W": len(W)})
            def f():
                F = getattr(lapack, fn)
                kk = dict(kw)
                if fn in ("gesv", "posv", "sysv", "trtrs", "gels", "potrs", "lacpy"):
                    if fn == "gesv" and rng.random() < 0.5: kk["ipiv"] = ip
                    kk = {a: b for a, b in kk.items() if a in F.__doc__}
                    F(A, B, **kk)
                elif fn == "getrs":
                    kk = {a: b for a, b in kk.items() if a in F.__doc__}
                    F(A, ip, B, **kk)
                elif fn == "getrf":
                    kk = {a: b for a, b in kk.items() if a in ("m", "n", "ldA", "offsetA")}
                    F(A, ip, **kk)
                elif fn == "getri":
                    kk = {a: b for a, b in kk.items() if a in ("n", "ldA", "offsetA")}
                    F(A, ip, **kk)
                elif fn in ("syev", "heev"):
                    kk = {a: b for a, b in kk.items() if a in ("n", "ldA", "offsetA")}
                    F(A, W, **kk)
                elif fn in ("gesvd", "gesdd"):
                    kk = {a: b for a, b in kk.items() if a in ("m", "n", "ldA", "offsetA")}
                    F(A, W, **kk)
                elif fn == "geqrf":
                    kk = {a: b for a, b in kk.items() if a in ("m", "n", "ldA", "offsetA")}
                    F(A, matrix(0.0, (len(W), 1), tc), **kk)
                else:
                    kk = {a: b for a, b in kk.items() if a in ("n", "ldA", "offsetA")}
                    F(A, **kk)
            return "lapack." + fn, f

        gens = [op_index, op_index, op_construct, op_buffer, op_base, op_base, op_misc] + ([op_blas, op_blas, op_lapack] if (blasspec and not noblas) else [])
        def one(c):
            rng = c.rng
            g = gens[rng.randrange(len(gens))]
            DET.clear()
            name, f = g(rng)
            c.desc["fn"] = name
            from vlib.harness import _jsonable
            ctx.log({"begin": "%s-%d-%d-%d" % (ctx.prop, ctx.seed, ctx.worker, c.k), "desc": {"fn": name, "args": _jsonable(DET)}})
            ctx.jf.flush()
            ctx.count("hostile.calls")
            try:
                f()
                ctx.count("hostile.accepted"); out = "accepted"
            except EXC as e:
                ctx.count("hostile.rejected"); out = type(e).__name__
            except AssertionError as e:
                c.check(); c.fail("hostile:%s:%s" % (name, str(e).replace(" ", "-")), "%s: %s" % (name, e), args=dict(DET)); out = "damage"
            c.check()
            c.cls("hostile", name, out)
            if c.k < 3:
                ctx.sample({"fn": name, "outcome": out})
        for k in ctx.cases():
            ctx.run_case(k, {}, one)
        _guard_stats(ctx)
        return

    # ------------------------------------------------------------------ large values, isolated child processes
    if mon == "large":
        BIG = [2 ** 31 - 1, 2 ** 31, 2 ** 31 + 1, -2 ** 31, -2 ** 31 - 1, 2 ** 32 + 1, 2 ** 63 - 1, -2 ** 63, 2 ** 62]
        import inspect
        def int_params(fn):
            doc = (fn.__doc__ or "").split("PURPOSE")[0]
            import re
            names = re.findall(r"\b(n|m|k|kl|ku|nrhs|inc[xy]?|ld[A-Z]\w*|offset\w*|il|iu)\s*=", doc)
            return sorted(set(names))
        targets = []
        for modname, mod in (("blas", blas), ("lapack", lapack), ("base", base)):
            for fname in sorted(dir(mod)):
                f = getattr(mod, fname)
                if callable(f) and not fname.startswith("_") and f.__doc__ and "PURPOSE" in f.__doc__:
                    ps = int_params(f)
                    if ps:
                        targets.append((modname, fname, ps))
        CHILD = r'''
import sys, json
from cvxopt import matrix, spmatrix, base, blas, lapack
modname, fname, plist = sys.argv[1], sys.argv[2], json.loads(sys.argv[3])
f = getattr({"blas": blas, "lapack": lapack, "base": base}[modname], fname)
doc = f.__doc__.split("PURPOSE")[0]
import re
m_ = re.search(r"%s\((.*?)\)" % fname, doc, re.S)
if m_ is None:
    sys.stdout.write("NOSIG\n"); sys.exit(0)
sig = m_.group(1)
pos = [a.strip() for a in sig.split(",") if "=" not in a and a.strip()]
for (pname, val) in plist:
    args = []
    for a in pos:
        if a in ("ipiv", "jpvt"): args.append(matrix(0, (4, 1), "i"))
        elif a in ("alpha", "beta"): args.append(1.0)
        else: args.append(matrix(1.0, (4, 4)))
    sys.stdout.write("BEGIN %s %s\n" % (pname, val)); sys.stdout.flush()
    try:
        f(*args, **{pname: val})
        sys.stdout.write("END accepted\n")
    except (TypeError, ValueError, OverflowError, ArithmeticError, IndexError, MemoryError) as e:
        sys.stdout.write("END %s\n" % type(e).__name__)
    sys.stdout.flush()
'''
        def one(c):
            rng = c.rng
            modname, fname, ps = targets[(c.k * ctx.nworkers + ctx.worker) % len(targets)] if ctx.tier == "thorough" else targets[rng.randrange(len(targets))]
            plist = [(p, v) for p in ps for v in BIG]
            if ctx.tier == "quick":
                plist = rng.sample(plist, min(5, len(plist)))
            c.desc.update({"fn": "%s.%s" % (modname, fname)})
            i = 0
            while i < len(plist):
                p = subprocess.run([sys.executable, "-c", CHILD, modname, fname, json.dumps(plist[i:])], capture_output=True, text=True,
                                   env=dict(os.environ), timeout=300)
                lines = [l for l in p.stdout.splitlines() if l.startswith(("BEGIN", "END"))]
                done = sum(1 for l in lines if l.startswith("END"))
                ctx.count("large.calls", done)
                for l in lines:
                    if l.startswith("END"):
                        ctx.count("large.outcome." + l.split()[1])
                c.check(max(done, 1))
                begun = [l for l in lines if l.startswith("BEGIN")]
                if p.returncode != 0 and len(begun) > done:
                    pname, val = begun[-1].split()[1], begun[-1].split()[2]
                    key = classify_crash({"desc": {"fn": "%s.%s" % (modname, fname)}}, p.stderr, p.returncode)
                    if key.startswith(("crash", "asan", "guard")):
                        key = "large-" + key + ":" + pname
                    ctx.count("large.calls")
                    c.fail(key, "%s.%s(%s=%s) killed the interpreter (rc %s): %s" % (modname, fname, pname, val, p.returncode, p.stderr[-600:]))
                    i += done + 1
                elif p.returncode != 0 and not begun:
                    c.fail("large:child-setup-failed", p.stderr[-600:]); break
                elif "NOSIG" in p.stdout:
                    ctx.count("large.no-signature"); break
                else:
                    break
            c.cls("large", modname, fname)
        for k in ctx.cases():
            ctx.run_case(k, {}, one)
        return


def _guard_stats(ctx):
    if ctx.variant != "guard":
        return
    import ctypes, cvxopt
    try:
        lib = ctypes.CDLL(os.path.join(os.path.dirname(cvxopt.__file__), "libvguard.so"))
        out = (ctypes.c_ulong * 6)()
        lib.vg_stats(out)
        ctx.count("guard.allocations", int(out[0]))
        ctx.count("guard.frees-with-canary-check", int(out[1]))
        ctx.count("guard.canary-bytes-checked", int(out[3]))
        bad = lib.vg_check_live()
        if bad:
            ctx.count("guard.live-canary-damage", int(bad))
    except Exception as e:
        ctx.count("guard.stats-unavailable")


def post_check(counters, maxima, tier):
    out = []
    if counters.get("guard.live-canary-damage", 0):
        out.append(("guard-canary:live-block-damaged", "%d damaged canary bytes around live cvxopt allocations at the end of a workload" %
                    counters["guard.live-canary-damage"]))
    return out
