#!/usr/bin/env python3
"""MANIFEST.setup_cmd: install the offline numpy/scipy wheels beside the checks
(/verif/.deps, git-ignored) and smoke-build cvxopt from /repo."""
import os, sys, shutil, tempfile
HERE = os.path.dirname(os.path.dirname(os.path.abspath(__file__)))
sys.path.insert(0, HERE)
from vlib.driver import ensure_deps
from vlib import build
print("deps:", ensure_deps())
d = tempfile.mkdtemp(prefix="cvxopt-verif-setup-")
try:
    print("build ok:", build.build("plain", d))
finally:
    shutil.rmtree(d, ignore_errors=True)
