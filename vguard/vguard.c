/* Page-guard allocator for the cvxopt verification builds (see DESIGN.md 6.2).
 *
 * Every allocation gets its own mapping  [PROT_NONE | data pages | PROT_NONE].
 * Layout (env VGUARD_LAYOUT):
 *   over   (default) block right-aligned VG_SLACK(64) bytes before the upper
 *          guard page; slack and leading pad carry a canary checked at free.
 *   strict block ends (up to 16-byte alignment for sizes not multiple of 8: 8)
 *          exactly at the upper guard page.
 *   under  block starts right after the lower guard page; canary after it.
 * free() of a pointer not in the table falls through to libc free().
 */
#define _GNU_SOURCE
#include <stdio.h>
#include <stdlib.h>
#include <string.h>
#include <stdint.h>
#include <unistd.h>
#include <pthread.h>
#include <sys/mman.h>

#define CANARY 0xA5
#define JUNK   0xCB
#define TBITS  20
#define TSIZE  (1u << TBITS)

typedef struct { void *user; char *base; size_t maplen; size_t size; } ent_t;

static ent_t *table = NULL;
static pthread_mutex_t mu = PTHREAD_MUTEX_INITIALIZER;
static int layout = -1;         /* 0 over, 1 strict, 2 under */
static size_t PAGE = 4096;
static unsigned long n_alloc, n_free, n_foreign_free, n_canary_bytes, n_live, n_peak;

static void die(const char *msg, void *p, size_t size, long off)
{
    char buf[256];
    int k = snprintf(buf, sizeof buf,
        "VGUARD: %s ptr=%p size=%zu offset=%ld\n", msg, p, size, off);
    if (write(2, buf, k)) {}
    abort();
}

static void init(void)
{
    if (layout >= 0) return;
    const char *e = getenv("VGUARD_LAYOUT");
    PAGE = (size_t) sysconf(_SC_PAGESIZE);
    table = mmap(NULL, sizeof(ent_t) * TSIZE, PROT_READ | PROT_WRITE,
                 MAP_PRIVATE | MAP_ANONYMOUS, -1, 0);
    if (table == MAP_FAILED) die("table mmap failed", NULL, 0, 0);
    if (e && !strcmp(e, "strict")) layout = 1;
    else if (e && !strcmp(e, "under")) layout = 2;
    else layout = 0;
}

static unsigned h(void *p) { return (unsigned)((((uintptr_t)p) >> 4) * 2654435761u) & (TSIZE - 1); }

static void t_put(ent_t e)
{
    unsigned i = h(e.user);
    for (unsigned k = 0; k < TSIZE; k++, i = (i + 1) & (TSIZE - 1))
        if (table[i].user == NULL || table[i].user == (void *)1) { table[i] = e; return; }
    die("allocation table full", e.user, e.size, 0);
}

static int t_take(void *p, ent_t *out)
{
    unsigned i = h(p);
    for (unsigned k = 0; k < TSIZE; k++, i = (i + 1) & (TSIZE - 1)) {
        if (table[i].user == NULL) return 0;
        if (table[i].user == p) { *out = table[i]; table[i].user = (void *)1; return 1; }
    }
    return 0;
}

static int t_peek(void *p, ent_t *out)
{
    unsigned i = h(p);
    for (unsigned k = 0; k < TSIZE; k++, i = (i + 1) & (TSIZE - 1)) {
        if (table[i].user == NULL) return 0;
        if (table[i].user == p) { *out = table[i]; return 1; }
    }
    return 0;
}

void *vg_malloc(size_t n)
{
    pthread_mutex_lock(&mu);
    init();
    size_t slack = (layout == 0) ? 64 : 0;
    size_t need = n + slack + 16;
    size_t data = ((need + PAGE - 1) / PAGE) * PAGE;
    if (data == 0) data = PAGE;
    size_t maplen = data + 2 * PAGE;
    char *base = mmap(NULL, maplen, PROT_NONE, MAP_PRIVATE | MAP_ANONYMOUS, -1, 0);
    if (base == MAP_FAILED) { pthread_mutex_unlock(&mu); return NULL; }
    if (mprotect(base + PAGE, data, PROT_READ | PROT_WRITE)) die("mprotect", base, n, 0);
    char *lo = base + PAGE, *hi = base + PAGE + data, *user;
    if (layout == 2) user = lo;
    else {
        uintptr_t u = (uintptr_t)(hi - slack - n);
        u &= ~(uintptr_t)7;              /* 8-byte alignment is all cvxopt needs */
        user = (char *)u;
    }
    memset(lo, CANARY, data);
    memset(user, JUNK, n);
    ent_t e = { user, base, maplen, n };
    t_put(e);
    n_alloc++; n_live++; if (n_live > n_peak) n_peak = n_live;
    pthread_mutex_unlock(&mu);
    return user;
}

void *vg_calloc(size_t a, size_t b)
{
    size_t n;
    if (__builtin_mul_overflow(a, b, &n)) return NULL;
    void *p = vg_malloc(n);
    if (p) memset(p, 0, n);
    return p;
}

static void check_and_unmap(ent_t e)
{
    char *lo = e.base + PAGE, *hi = e.base + e.maplen - PAGE;
    char *u = (char *)e.user;
    for (char *q = lo; q < u; q++)
        if ((unsigned char)*q != CANARY) die("canary damaged BEFORE block (underwrite)", e.user, e.size, (long)(q - u));
    for (char *q = u + e.size; q < hi; q++)
        if ((unsigned char)*q != CANARY) die("canary damaged AFTER block (overwrite)", e.user, e.size, (long)(q - u));
    n_canary_bytes += (unsigned long)((u - lo) + (hi - (u + e.size)));
    munmap(e.base, e.maplen);
}

void vg_free(void *p)
{
    if (!p) return;
    ent_t e;
    pthread_mutex_lock(&mu);
    init();
    int found = t_take(p, &e);
    if (found) { n_free++; n_live--; check_and_unmap(e); }
    else n_foreign_free++;
    pthread_mutex_unlock(&mu);
    if (!found) (free)(p);
}

void *vg_realloc(void *p, size_t n)
{
    if (!p) return vg_malloc(n);
    ent_t e;
    pthread_mutex_lock(&mu);
    init();
    int found = t_peek(p, &e);
    pthread_mutex_unlock(&mu);
    if (!found) return (realloc)(p, n);
    if (n == 0) { vg_free(p); return NULL; }
    void *q = vg_malloc(n);
    if (!q) return NULL;
    memcpy(q, p, e.size < n ? e.size : n);
    vg_free(p);
    return q;
}

/* for the harness (ctypes): counters proving the allocator was in the path */
void vg_stats(unsigned long out[6])
{
    out[0] = n_alloc; out[1] = n_free; out[2] = n_foreign_free;
    out[3] = n_canary_bytes; out[4] = n_live; out[5] = n_peak;
}

/* check canaries of all live blocks now (quiescent-point hook) */
int vg_check_live(void)
{
    int bad = 0;
    pthread_mutex_lock(&mu);
    init();
    for (unsigned i = 0; i < TSIZE; i++) {
        ent_t e = table[i];
        if (e.user == NULL || e.user == (void *)1) continue;
        char *lo = e.base + PAGE, *hi = e.base + e.maplen - PAGE, *u = (char *)e.user;
        for (char *q = lo; q < u; q++) if ((unsigned char)*q != CANARY) bad++;
        for (char *q = u + e.size; q < hi; q++) if ((unsigned char)*q != CANARY) bad++;
    }
    pthread_mutex_unlock(&mu);
    return bad;
}
