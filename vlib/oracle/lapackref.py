"""O-lapack: numpy-only helpers for the C18 oracle (defining equations of the
LAPACK wrappers).  Written from doc/source/lapack.rst, the docstrings of
cvxopt.lapack and the storage conventions of doc/source/blas.rst / the LAPACK
Users' Guide (band layouts, elementary reflectors).  Nothing here calls cvxopt.

All random choices go through the `random.Random` instance handed in, so that
a case can be replayed alone."""
import math
import numpy as np

U = 2.0 ** -53
PAT = 7.123456789e+77            # canary bit pattern (real part)
PATZ = complex(7.123456789e+77, -3.987654321e+66)
PATI = 1234567891


def dtype_of(tc):
    return {"d": np.float64, "z": np.complex128, "i": np.int64}[tc]


def pat_of(tc):
    return {"d": PAT, "z": PATZ, "i": PATI}[tc]


def H(a):
    return np.conj(a).T


def fro(a):
    a = np.asarray(a)
    if a.size == 0:
        return 0.0
    v = float(np.sqrt(np.sum(np.abs(a) ** 2)))
    return v


# ----------------------------------------------------------------------------
# generators
# ----------------------------------------------------------------------------
def rnd(rng, m, n, tc, lo=-1.0, hi=1.0):
    a = np.array([[rng.uniform(lo, hi) for _ in range(n)] for _ in range(m)], dtype=float).reshape(m, n)
    if tc == "z":
        b = np.array([[rng.uniform(lo, hi) for _ in range(n)] for _ in range(m)], dtype=float).reshape(m, n)
        return a + 1j * b
    return a


def gauss(rng, m, n, tc):
    a = np.array([[rng.gauss(0, 1) for _ in range(n)] for _ in range(m)], dtype=float).reshape(m, n)
    if tc == "z":
        b = np.array([[rng.gauss(0, 1) for _ in range(n)] for _ in range(m)], dtype=float).reshape(m, n)
        return a + 1j * b
    return a


def orth(rng, n, tc):
    """random orthogonal / unitary matrix of order n"""
    if n == 0:
        return np.zeros((0, 0), dtype=dtype_of(tc))
    q, r = np.linalg.qr(gauss(rng, n, n, tc))
    d = np.diag(r).copy()
    d[d == 0] = 1.0
    return q * (d / np.abs(d))


def svals(rng, k, cond):
    """k singular values in [1/cond, 1] * scale, log-uniform, both ends hit"""
    if k == 0:
        return np.zeros(0)
    scale = math.exp(rng.uniform(-1.5, 1.5))
    c = math.exp(rng.uniform(0.0, math.log(cond)))
    s = [math.exp(-rng.uniform(0.0, math.log(c)) if c > 1 else 0.0) for _ in range(k)]
    s[0] = 1.0
    if k > 1:
        s[-1] = 1.0 / c
    rng.shuffle(s)
    return np.array(s) * scale


def wellcond(rng, m, n, tc, cond=1e3):
    """m x n full-rank matrix with 2-norm condition number <= cond"""
    k = min(m, n)
    if k == 0:
        return np.zeros((m, n), dtype=dtype_of(tc))
    u = orth(rng, m, tc)[:, :k]
    v = orth(rng, n, tc)[:, :k]
    return (u * svals(rng, k, cond)) @ H(v)


def herm_indef(rng, n, tc, cond=1e3):
    """real symmetric / complex Hermitian, indefinite, |eigenvalues| in [1/cond,1]*scale"""
    if n == 0:
        return np.zeros((0, 0), dtype=dtype_of(tc))
    q = orth(rng, n, tc)
    lam = svals(rng, n, cond) * np.array([rng.choice([-1.0, 1.0]) for _ in range(n)])
    a = (q * lam) @ H(q)
    a = 0.5 * (a + H(a))
    if tc == "z":
        a[np.diag_indices(n)] = a.diagonal().real
    return a


def herm_posdef(rng, n, tc, cond=1e3):
    if n == 0:
        return np.zeros((0, 0), dtype=dtype_of(tc))
    q = orth(rng, n, tc)
    a = (q * svals(rng, n, cond)) @ H(q)
    a = 0.5 * (a + H(a))
    if tc == "z":
        a[np.diag_indices(n)] = a.diagonal().real
    return a


def csym(rng, n, cond=1e3):
    """complex symmetric (A = A^T, not Hermitian) with singular values in [1/cond,1]*scale (Takagi form)"""
    if n == 0:
        return np.zeros((0, 0), dtype=complex)
    q = orth(rng, n, "z")
    a = (q * svals(rng, n, cond)) @ q.T
    return 0.5 * (a + a.T)


def sym_for(rng, n, tc, kind, cond=1e3):
    """kind 'sy' (A = A^T) or 'he' (A = A^H)"""
    if kind == "sy" and tc == "z":
        return csym(rng, n, cond)
    return herm_indef(rng, n, tc, cond)


def cond2(a):
    if a.size == 0:
        return 1.0
    s = np.linalg.svd(a, compute_uv=False)
    if s[-1] == 0:
        return float("inf")
    return float(s[0] / s[-1])


def band_general(rng, m, n, kl, ku, tc, cond=1e3):
    """dense m x n matrix with kl sub- and ku superdiagonals; if square, cond2 <= cond"""
    def draw(boost):
        a = rnd(rng, m, n, tc)
        for i in range(m):
            for j in range(n):
                if i - j > kl or j - i > ku:
                    a[i, j] = 0
        for i in range(min(m, n)):
            a[i, i] += boost * (1 if rng.random() < 0.5 else -1)
        return a
    for t in range(40):
        a = draw(0.0 if t < 20 else 0.5 * (t - 19))
        if m != n or cond2(a) <= cond:
            return a
    a = draw(4.0 * (kl + ku + 1))
    return a


def tri_wellcond(rng, n, tc, uplo, diag, kd=None, cond=1e3):
    """dense triangular (band if kd given) matrix with cond2 <= cond; diag 'U' => unit diagonal"""
    def draw(f):
        a = rnd(rng, n, n, tc) * f
        a = np.tril(a) if uplo == "L" else np.triu(a)
        if kd is not None:
            for i in range(n):
                for j in range(n):
                    if abs(i - j) > kd:
                        a[i, j] = 0
        for i in range(n):
            if diag == "U":
                a[i, i] = 1.0
            else:
                v = rng.uniform(0.5, 2.0) * (1 if rng.random() < 0.5 else -1)
                a[i, i] = v * (complex(math.cos(1.0), math.sin(1.0)) ** rng.randint(0, 5) if tc == "z" else 1.0)
        return a
    f = 1.0
    for t in range(40):
        a = draw(f)
        if cond2(a) <= cond:
            return a
        f *= 0.8
    return draw(0.0)


def band_posdef(rng, n, kd, tc):
    """Hermitian positive definite band matrix (strictly diagonally dominant)"""
    a = rnd(rng, n, n, tc)
    a = np.tril(a, -1)
    for i in range(n):
        for j in range(n):
            if i - j > kd:
                a[i, j] = 0
    a = a + H(a)
    for i in range(n):
        a[i, i] = float(np.sum(np.abs(a[i, :]))) + rng.uniform(0.3, 2.0)
    return a


def separated(rng, n, gap=0.2, repeat=False):
    """n real numbers, ascending, pairwise gaps >= gap-0.06 (or with repeated values)"""
    if n == 0:
        return np.zeros(0)
    grid = rng.sample(range(-12, 13), n)
    lam = sorted(g * gap + rng.uniform(-0.03, 0.03) for g in grid)
    if repeat and n >= 2:
        i = rng.randrange(n - 1)
        lam[i + 1] = lam[i]
        if n >= 4 and rng.random() < 0.5:
            lam[-1] = lam[-2]
        lam = sorted(lam)
    return np.array(lam)


def herm_with_eigs(rng, lam, tc):
    n = len(lam)
    if n == 0:
        return np.zeros((0, 0), dtype=dtype_of(tc))
    q = orth(rng, n, tc)
    a = (q * lam) @ H(q)
    a = 0.5 * (a + H(a))
    if tc == "z":
        a[np.diag_indices(n)] = a.diagonal().real
    return a


def schur_planted(rng, n, tc):
    """A = Q T Q^H, T (quasi-)upper triangular with well separated eigenvalues, moderate non-normality"""
    if n == 0:
        return np.zeros((0, 0), dtype=dtype_of(tc))
    t = np.triu(rnd(rng, n, n, tc, -0.5, 0.5), 1)
    re = list(separated(rng, n, gap=0.25))
    rng.shuffle(re)
    if tc == "z":
        for i in range(n):
            t[i, i] = re[i] + 1j * rng.uniform(-2, 2)
    else:
        i = 0
        while i < n:
            if i + 1 < n and rng.random() < 0.45:
                a = re[i]
                b = rng.uniform(0.4, 1.5); cc = rng.uniform(0.4, 1.5)
                t[i, i] = a; t[i + 1, i + 1] = a; t[i, i + 1] = b; t[i + 1, i] = -cc
                i += 2
            else:
                t[i, i] = re[i]
                i += 1
    q = orth(rng, n, tc)
    return q @ t @ H(q)


# ----------------------------------------------------------------------------
# band / tridiagonal storage (doc/source/blas.rst "Matrix Classes", LAPACK UG 5.3.3)
# ----------------------------------------------------------------------------
def gb_pack(a, kl, ku, extra, junk):
    """general band m x n -> (extra+kl+ku+1) x n array; A[i,j] at row extra+ku+i-j.
    `junk(r,c)` supplies values for the positions that hold no matrix element"""
    m, n = a.shape
    r = extra + kl + ku + 1
    ab = np.zeros((r, n), dtype=a.dtype)
    for j in range(n):
        for p in range(r):
            ab[p, j] = junk(p, j)
    for j in range(n):
        for i in range(max(0, j - ku), min(m, j + kl + 1)):
            ab[extra + ku + i - j, j] = a[i, j]
    return ab


def sb_pack(a, kd, uplo, junk):
    """Hermitian/symmetric/triangular band, order n -> (kd+1) x n.
    'L': A[i,j] (j<=i<=j+kd) at row i-j;  'U': A[i,j] (j-kd<=i<=j) at row kd+i-j"""
    n = a.shape[0]
    ab = np.zeros((kd + 1, n), dtype=a.dtype)
    for j in range(n):
        for p in range(kd + 1):
            ab[p, j] = junk(p, j)
    for j in range(n):
        if uplo == "L":
            for i in range(j, min(n, j + kd + 1)):
                ab[i - j, j] = a[i, j]
        else:
            for i in range(max(0, j - kd), j + 1):
                ab[kd + i - j, j] = a[i, j]
    return ab


def sb_unpack_tri(ab, n, kd, uplo):
    """triangular band array -> dense triangular matrix (only the stored triangle)"""
    a = np.zeros((n, n), dtype=ab.dtype)
    for j in range(n):
        if uplo == "L":
            for i in range(j, min(n, j + kd + 1)):
                a[i, j] = ab[i - j, j]
        else:
            for i in range(max(0, j - kd), j + 1):
                a[i, j] = ab[kd + i - j, j]
    return a


def tridiag(dl, d, du):
    n = len(d)
    a = np.zeros((n, n), dtype=np.result_type(np.asarray(dl).dtype, np.asarray(d).dtype, np.asarray(du).dtype, float))
    for i in range(n):
        a[i, i] = d[i]
    for i in range(n - 1):
        a[i + 1, i] = dl[i]
        a[i, i + 1] = du[i]
    return a


def from_triangle(a, uplo, herm):
    """full matrix defined by the `uplo` triangle of a (Hermitian if herm else symmetric)"""
    if uplo == "L":
        t = np.tril(a, -1)
    else:
        t = np.triu(a, 1)
    d = np.diag(np.diag(a))
    if herm:
        d = d.real.astype(a.dtype) if np.iscomplexobj(a) else d
        return t + H(t) + d
    return t + t.T + d


def junk_other_triangle(rng, a, uplo, tc):
    """copy of a whose *unreferenced* strict triangle is replaced by unrelated values"""
    n = a.shape[0]
    b = a.copy()
    j = rnd(rng, n, n, tc, 5.0, 9.0)
    if uplo == "L":
        b[np.triu_indices(n, 1)] = j[np.triu_indices(n, 1)]
    else:
        b[np.tril_indices(n, -1)] = j[np.tril_indices(n, -1)]
    return b


# ----------------------------------------------------------------------------
# elementary reflectors (LAPACK UG 5.4; docstring of larfg: H = I - tau [1;v][1;v]^H)
# ----------------------------------------------------------------------------
def q_from_qr(af, tau, order, k):
    """Q = H_1 H_2 ... H_k of order `order`; v_i = [0..0, 1, af[i+1:order, i]]"""
    q = np.eye(order, dtype=af.dtype if order else float)
    q = q.astype(np.result_type(af.dtype, float))
    for i in range(k):
        v = np.zeros(order, dtype=q.dtype)
        v[i] = 1.0
        v[i + 1:] = af[i + 1:order, i]
        q = q @ (np.eye(order) - tau[i] * np.outer(v, np.conj(v)))
    return q


def q_from_lq(af, tau, order, k):
    """gelqf: Q = H_k^H ... H_2^H H_1^H of order `order`; H_i = I - tau_i v v^H,
    v = [0..0, 1, conj(af[i, i+1:order])]  (real case: Q = H_k ... H_1)"""
    q = np.eye(order).astype(np.result_type(af.dtype, float))
    for i in range(k):
        v = np.zeros(order, dtype=q.dtype)
        v[i] = 1.0
        v[i + 1:] = np.conj(af[i, i + 1:order])
        h = np.eye(order) - tau[i] * np.outer(v, np.conj(v))
        q = H(h) @ q
    return q


def ipiv_to_perm(ipiv, m):
    """row interchanges (1-based, LAPACK) -> permutation p with (P A)[i] = A[p[i]] after
    applying interchange i <-> ipiv[i]-1 for i = 0..len-1 in order"""
    p = list(range(m))
    for i, piv in enumerate(ipiv):
        j = int(piv) - 1
        p[i], p[j] = p[j], p[i]
    return p


def quasi_blocks(t, tol=0.0):
    """[(start, size)] diagonal blocks of a real quasi-triangular matrix (size 2 where the subdiagonal is nonzero)"""
    n = t.shape[0]
    out, i = [], 0
    while i < n:
        if i + 1 < n and abs(t[i + 1, i]) > tol:
            out.append((i, 2)); i += 2
        else:
            out.append((i, 1)); i += 1
    return out
